ST = "execution::state::kani_c20_state"
LT = "execution::commitment::kani_c20_lthash"
EN = "execution::kani_c20_engine"
HASH_STUB = "crypto::hash::hash_all"
ENTRY_STUB = "execution::commitment::LtHash::hash_entry"
Q, T = ["quick", "thorough"], ["thorough"]
VL = 64  # lanes under Kani (kani_c20_hash::VL)

KEYS8 = "keys: the 8 addresses [0x28|k, 0, ..., 0], k<8 symbolic (same first 5-bit chunk, different second chunk); values: 1 symbolic byte"
STANDINS = "state.rs on the typed stand-ins for Arc (10-node pool), SmallVec (<=4 children) and the traversal stack (<=4 entries)"


def _k(name, functions, bounds, covers, tiers=Q, **kw):
    h = {"name": name, "path": ST, "tiers": tiers, "functions": functions, "bounds": bounds, "covers": covers,
         "timeout": {"quick": 360, "thorough": 1200}, "mem_gb": 8}
    h.update(kw)
    return h


def _lt(name, covers, tiers, functions, bounds, stub=None, **kw):
    # the real `==` on [u16; VL] is a 2*VL-iteration memcmp
    h = {"name": name, "path": LT, "tiers": tiers, "functions": functions, "covers": covers, "stubs": [stub or ENTRY_STUB],
         "bounds": bounds + f"; {VL} lanes (NUM_LANES redirected from 1024 under Kani), all lane values symbolic",
         "timeout": {"quick": 420, "thorough": 1500}, "mem_gb": 8, "cbmc_args": ["--unwindset", "memcmp.0:%d" % (2 * VL + 2)]}
    h.update(kw)
    return h


def _en(name, covers, tiers, functions, bounds, stubs=(), **kw):
    h = {"name": name, "path": EN, "tiers": tiers, "functions": functions, "covers": covers, "stubs": list(stubs),
         "bounds": bounds + "; blocks map = bounded stand-in for BTreeMap (<=4 blocks), engine built without its event channel",
         "timeout": {"quick": 420, "thorough": 1500}, "mem_gb": 8}
    h.update(kw)
    return h


LANE_OPS = ["LtHash::add_entry", "LtHash::remove_entry", "LtHash::add_assign", "LtHash::sub_assign"]
ENTRY = "entries: any 32-byte key, value of 0..=2 symbolic bytes; hash_entry = arbitrary function of the entry (oracle)"

SPEC = {
    "property": "C20",
    "design_ref": "DESIGN.md §4 C20",
    "level_text": (
        "Bounded symbolic verification (Kani/CBMC) of the real execution-state code. Decided for ALL inputs inside the bounds: "
        "(1) kernels of the trie: chunk_at equals the documented 5-bit group for every 32-byte key and every depth 0..51, chunk order at the first differing depth is "
        "lexicographic key order and 52 equal chunks mean equal keys; Branch::child_index is the rank of the bit for every 32-bit bitmap; insert_child/remove_child keep "
        "children.len()==popcount(bitmap), order and position for every bitmap of <=4 children; "
        "(2) LtHash with the per-entry hash as an arbitrary function: add then remove returns to any previous commitment (and to the identity), two updates commute and equal "
        "base±h(e1)±h(e2), three adds are order independent, observe(old,new) equals remove_entry(old) then add_entry(new), hash_entry is the documented counter-mode "
        "expansion, and the commitment maintained by observe over <=3 arbitrary writes equals the commitment recomputed from the resulting contents; "
        "(3) placeholder engine: begin_block seeds from the parent's computed commitment when the parent is known (full id before slot), else from the parent block hash, "
        "else genesis; execute_transactions is the fold h:=H(h‖tx) over <=3 transactions of <=3 bytes, independent of slicing, touching no other block; parent→child chaining; "
        "(4) State level, ONLY for one operation on the EMPTY state: insert/remove return value, get/len/is_empty, ordered iteration and fork isolation agree with the reference map. "
        "NOT decided by the solver: map semantics, fork isolation and canonical structure (split on insert, collapse on removal, == of equal contents) from NON-EMPTY states — "
        "every such harness exhausted 10 GB even on stand-ins for Arc/SmallVec (see outside)."
    ),
    "level_note": (
        "Lane arithmetic is verified on 64 lanes, not 1024: spec.py rewrites `const NUM_LANES` in the scratch copy under cfg(kani) (one real 1024-lane loop costs 3.3 M SAT variables; "
        "the loops run over the whole [u16; NUM_LANES] arrays and are uniform in the lane index). Under Kani state.rs and execution.rs run on typed, bounded stand-ins for "
        "std::sync::Arc, smallvec::SmallVec, the Vec used as traversal stack and std BTreeMap (import redirection under cfg(kani); native replay uses the real types). "
        "SHA-256 is an oracle (arbitrary function for LtHash, collision-free table for the engine). DummyExecution::end_block is not executed (tokio mpsc is a Kani compiler error); "
        "the commitment it copies into the event is read from the engine state. Trusts Kani's MIR translation, CBMC, CaDiCaL; CBMC pointer-validity checks off."
    ),
    "explanation": (
        "Bounded symbolic verification (Kani -> CBMC -> CaDiCaL) of src/execution/{state,commitment}.rs and src/execution.rs compiled from /repo's working tree with add-only overlay "
        "modules placed as child modules (they see private items). Every counterexample is replayed natively against the unmodified code with real SHA-256, std Arc/BTreeMap and smallvec "
        "(1024 lanes); only a natively reproduced failure is reported as a violation. One harness = one or two calls of the code under test from symbolic inputs; finite shapes "
        "(number of children, add/remove kinds, transactions per slice) are fixed per harness and enumerated."
    ),
    "assumptions": [
        "SHA-256: LtHash::hash_entry is an arbitrary function of (key, value) (Kani-only stub); in c20_lt_hash_entry and the engine harnesses crypto::hash::hash_all is an oracle "
        "(function of its input; engine: collision-free on the queries made, never the all-zero genesis hash)",
        "NUM_LANES = 64 under Kani (1024 in the real build and in native replays)",
        "std::sync::Arc behaves as a reference-counted box with copy-on-write make_mut; smallvec::SmallVec as a sequence; std BTreeMap as a finite map keyed by Ord equality; Vec as a LIFO in state::Iter "
        "(stand-ins kani_c20_sv.rs / kani_c20_map.rs written from the documented contracts; storage is never reclaimed in the Arc stand-in)",
        "CBMC pointer-validity checks are off (memory safety of std internals is not part of the claim); Rust panics, arithmetic overflow, debug_assert! and unwinding assertions stay on",
        "State-level harnesses start from the empty state only",
    ],
    "trusted_base": [
        "stand-ins: kani_c20_sv.rs (Arc node pool, SmallVec, Stack), kani_c20_map.rs (BTreeMap)",
        "oracles: kani_c20_lthash.rs::entry_oracle, kani_c20_hash.rs::{lt_oracle, hash_all_engine}, verif_std::hash_oracle",
        "reference models written from the documentation: ref_chunk/ref_rank (state), closed_form (LtHash), ref_fold (engine), operation-list map (state, LtHash)",
        "spec.py redirects (5 regex rewrites of the scratch copy, cfg(kani) only, all `required`)",
    ],
    "bounds": (
        "kernels: all 32-byte keys x depths 0..51, all 32-bit bitmaps, branches of <=4 children; LtHash: 64 lanes, <=3 entries (values <=2 bytes), <=3 writes; "
        "engine: <=3 transactions of <=3 bytes, <=4 blocks; State: one operation on the empty state, 8 clustered keys, 1-byte values"
    ),
    "outside": [
        "map semantics / fork isolation / canonical structure of State from NON-EMPTY states (insert that splits a leaf, removal that collapses a branch, Arc::make_mut path copying below the root, "
        "== of states built in different orders, insert-then-remove round trip): written (map_body/fork_body/canon_* with P>=1, canon_undo_p0) but every instance exhausted 10 GB or 25 min — "
        "with the real Arc/SmallVec even a concrete insert into the empty state does (CBMC cannot propagate constants through untyped heap blocks and explores insert_rec x split_leaves x drop glue to the "
        "recursion bound); with the stand-ins one operation on a one-entry state does. These parts of C20 are covered only by the kernels (chunk_at, child_index, insert_child, remove_child) and by /repo's own unit tests",
        "LtHash lanes 64..1023 (same loop bodies); LtHash::digest (SHA-256 of the lanes); entries with values longer than 2 bytes",
        "incremental == recomputed with the real State in the loop (c20_lt_incremental_p*: time cap); decided instead against the operation-list map (c20_lt_incremental_ref_*)",
        "DummyExecution::end_block / finalize, the event channel; transactions longer than 3 bytes, more than 3 per block",
        "real smallvec / std Arc / std BTreeMap internals",
    ],
    "functions": [
        "execution::state::{chunk_at, Branch::{child_index, insert_child, remove_child}}",
        "execution::state::State::{new, insert, insert_rec, remove, remove_rec, get, len, is_empty, iter, clone, eq}, Iter::next (one operation on the empty state, on stand-ins)",
        "execution::commitment::LtHash::{identity, default, add_entry, remove_entry, observe, hash_entry, add_assign, sub_assign, eq}",
        "execution::DummyExecution::{begin_block, execute_transactions} (ExecutionEngine impl)",
    ],
    "redirects": [
        # lane bound: see kani_c20_lthash.rs; active under cfg(kani) only, native replay runs the real 1024 lanes
        {"file": "src/execution/commitment.rs", "pattern": r"^const NUM_LANES: usize = 1024;$",
         "replacement": "#[cfg(not(kani))]\nconst NUM_LANES: usize = 1024;\n#[cfg(kani)]\nconst NUM_LANES: usize = %d;" % VL, "required": True},
        # typed node pool instead of std Arc, bounded SmallVec (see kani_c20_sv.rs); cfg(kani) only
        {"file": "src/execution/state.rs", "pattern": r"^use std::sync::Arc;$",
         "replacement": "#[cfg(not(kani))]\nuse std::sync::Arc;\n#[cfg(kani)]\nuse self::kani_c20_sv::Arc;", "required": True},
        {"file": "src/execution/state.rs", "pattern": r"^use smallvec::SmallVec;$",
         "replacement": "#[cfg(not(kani))]\nuse smallvec::SmallVec;\n#[cfg(kani)]\nuse self::kani_c20_sv::SmallVec;", "required": True},
        # bounded LIFO instead of the heap Vec used as traversal stack by state::Iter (see kani_c20_sv.rs); cfg(kani) only
        {"file": "src/execution/state.rs", "pattern": r"^    stack: Vec<&'a Node>,$",
         "replacement": "    #[cfg(not(kani))]\n    stack: Vec<&'a Node>,\n    #[cfg(kani)]\n    stack: self::kani_c20_sv::Stack<&'a Node>,", "required": True},
        {"file": "src/execution/state.rs", "pattern": r"^            stack: vec!\[self\.root\.as_ref\(\)\],$",
         "replacement": "            #[cfg(not(kani))]\n            stack: vec![self.root.as_ref()],\n            #[cfg(kani)]\n            stack: self::kani_c20_sv::Stack::of(self.root.as_ref()),", "required": True},
        # bounded stand-in for std BTreeMap (see kani_c20_map.rs); cfg(kani) only
        {"file": "src/execution.rs", "pattern": r"^use std::collections::BTreeMap;$",
         "replacement": "#[cfg(not(kani))]\nuse std::collections::BTreeMap;\n#[cfg(kani)]\nuse self::kani_c20_map::BTreeMap;", "required": True},
    ],
    "overlays": [
        {"src": "C20/kani_c20_hash.rs", "dest": "src/crypto/kani_c20_hash.rs", "decl_in": "src/crypto.rs", "decl": "pub(crate) mod kani_c20_hash;"},
        {"src": "C20/kani_c20_sv.rs", "dest": "src/execution/state/kani_c20_sv.rs", "decl_in": "src/execution/state.rs", "decl": "mod kani_c20_sv;"},
        {"src": "C20/kani_c20_state.rs", "dest": "src/execution/state/kani_c20_state.rs", "decl_in": "src/execution/state.rs", "decl": "mod kani_c20_state;"},
        {"src": "C20/kani_c20_lthash.rs", "dest": "src/execution/commitment/kani_c20_lthash.rs", "decl_in": "src/execution/commitment.rs", "decl": "mod kani_c20_lthash;"},
        {"src": "C20/kani_c20_map.rs", "dest": "src/execution/kani_c20_map.rs", "decl_in": "src/execution.rs", "decl": "mod kani_c20_map;"},
        {"src": "C20/kani_c20_engine.rs", "dest": "src/execution/kani_c20_engine.rs", "decl_in": "src/execution.rs", "decl": "mod kani_c20_engine;"},
    ],
    "harnesses": [
        # ---- kernels -------------------------------------------------------------------------
        _k("c20_chunk_value", ["state::chunk_at"], "every 32-byte key, every depth 0..=51", 3, role="kernel/chunk_at"),
        _k("c20_chunk_lexorder", ["state::chunk_at"], "every pair of 32-byte keys, all 52 depths", 3, role="kernel/chunk order = key order, chunks determine the key"),
        _k("c20_rank", ["state::Branch::child_index"], "every 32-bit bitmap, every chunk < 32", 3, role="kernel/child_index"),
    ]
    + [_k(f"c20_child_ins_n{n}", ["state::Branch::insert_child", "state::Branch::child_index"],
          f"branch with {n} children on symbolic strictly increasing chunks, insert on any vacant chunk; children container = SmallVec stand-in", 2,
          tiers=(Q if n == 2 else T), role="kernel/insert_child") for n in range(4)]
    + [_k(f"c20_child_rem_n{n}", ["state::Branch::remove_child", "state::Branch::child_index"],
          f"branch with {n} children on symbolic strictly increasing chunks, remove any of them; children container = SmallVec stand-in", 2,
          tiers=(Q if n == 3 else T), role="kernel/remove_child") for n in range(1, 5)]
    # ---- State, one operation on the empty state ------------------------------------------------
    + [
        _k("c20_map_get_p0", ["State::new", "State::insert", "State::remove", "State::get", "State::len", "State::is_empty"],
           f"empty state, one symbolic operation (insert k v | remove k), probe key with symbolic last byte; {KEYS8}; {STANDINS}", 6, role="map semantics/lookups (empty state)"),
        _k("c20_map_iter_p0", ["State::insert", "State::remove", "State::iter", "Iter::next"],
           f"empty state, one symbolic operation, two next() calls; {KEYS8}; {STANDINS}", 6, role="map semantics/ordered iteration (empty state)"),
        _k("c20_fork_p0_wf", ["State::clone", "State::insert", "State::remove", "State::get", "State::eq"],
           f"empty state cloned, one symbolic operation on the clone; {KEYS8}; {STANDINS}", 5, role="fork isolation (empty state, write to fork)"),
        _k("c20_fork_p0_wo", ["State::clone", "State::insert", "State::remove", "State::get", "State::eq"],
           f"empty state cloned, one symbolic operation on the original; {KEYS8}; {STANDINS}", 5, tiers=T, role="fork isolation (empty state, write to original)"),
    ]
    # ---- LtHash ------------------------------------------------------------------------------
    + [
        _lt("c20_lt_add_remove", 4, Q, LANE_OPS + ["LtHash::identity", "LtHash::default", "LtHash::eq"], f"any commitment, one entry; {ENTRY}"),
        _lt("c20_lt_commute_aa", 3, Q, LANE_OPS, f"any commitment, two entries (possibly equal), add+add in both orders; {ENTRY}"),
        _lt("c20_lt_commute_ar", 3, T, LANE_OPS, f"any commitment, two entries, add+remove in both orders; {ENTRY}"),
        _lt("c20_lt_commute_rr", 3, T, LANE_OPS, f"any commitment, two entries, remove+remove in both orders; {ENTRY}"),
        _lt("c20_lt_order3", 3, T, LANE_OPS + ["LtHash::eq"], f"three entries added from the identity in order (0,1,2) and in any other permutation; {ENTRY}"),
        _lt("c20_lt_observe", 5, T, ["LtHash::observe"] + LANE_OPS, f"any commitment, any key, old/new each absent or any value; {ENTRY}"),
        _lt("c20_lt_hash_entry", 1, Q, ["LtHash::hash_entry"], "one entry (any key, value <=2 bytes); SHA-256 = oracle keyed on hash_entry's two call shapes", stub=HASH_STUB),
        _lt("c20_lt_incremental_ref_s1", 4, T, ["LtHash::observe", "LtHash::add_entry", "LtHash::eq"], f"1 write (insert|remove) on arbitrary keys, map = write list; {ENTRY}"),
        _lt("c20_lt_incremental_ref_s2", 4, Q, ["LtHash::observe", "LtHash::add_entry", "LtHash::eq"], f"2 writes (each insert|remove) on arbitrary, possibly equal keys, map = write list; {ENTRY}"),
        _lt("c20_lt_incremental_ref_s3", 4, T, ["LtHash::observe", "LtHash::add_entry", "LtHash::eq"], f"3 writes (each insert|remove) on arbitrary, possibly equal keys, map = write list; {ENTRY}"),
    ]
    # ---- engine ------------------------------------------------------------------------------
    + [_en(f"c20_engine_seed_{w}", 5, tiers, ["DummyExecution::begin_block"],
           f"engine holding two other blocks; parent {desc}; new block Pending or Known, parent Some/None symbolic; slots, hashes, commitments symbolic")
       for (w, tiers, desc) in (("unknown", Q, "not known to the engine"), ("pending", T, "known under its slot only"), ("known", T, "known under its full id only"), ("both", Q, "known under both (full id wins)"))]
    + [_en(f"c20_engine_fold_n{n}_c{c}", 3, (Q if (n, c) == (2, 1) else T), ["DummyExecution::execute_transactions"],
           f"{n} transactions of 0..=3 symbolic bytes in one slice vs. slices of {c}+{n - c}; symbolic seeds; a third block and an unknown block id", [HASH_STUB])
       for (n, c) in ((0, 0), (1, 0), (1, 1), (2, 0), (2, 1), (2, 2), (3, 1), (3, 2))]
    + [_en("c20_engine_chain", 2, Q, ["DummyExecution::begin_block", "DummyExecution::execute_transactions"],
           "parent on genesis with 1 transaction, child on the parent (any block hash) with 1 transaction; symbolic slots", [HASH_STUB])],
}
