ST = "execution::state::kani_c20_state"
LT = "execution::commitment::kani_c20_lthash"
EN = "execution::kani_c20_engine"
HASH_STUB = "crypto::hash::hash_all"
ENTRY_STUB = "execution::commitment::LtHash::hash_entry"
Q, T = ["quick", "thorough"], ["thorough"]

def _k(name, functions, bounds, covers, tiers=Q, **kw):
    h = {"name": name, "path": ST, "tiers": tiers, "functions": functions, "bounds": bounds, "covers": covers,
         "timeout": {"quick": 360, "thorough": 1200}, "mem_gb": 8}
    h.update(kw)
    return h

VL = 64  # lanes under Kani (kani_c20_hash::VL)

def _lt(name, covers, tiers, stub=None, **kw):
    # the real `==` on [u16; VL] is a 2*VL-iteration memcmp
    h = {"name": name, "path": LT, "tiers": tiers, "functions": [], "bounds": "", "covers": covers, "stubs": [stub or ENTRY_STUB],
         "timeout": {"quick": 420, "thorough": 1500}, "mem_gb": 8, "cbmc_args": ["--unwindset", "memcmp.0:%d" % (2 * VL + 2)]}
    h.update(kw)
    return h

def _en(name, covers, tiers, stubs=(), **kw):
    h = {"name": name, "path": EN, "tiers": tiers, "functions": [], "bounds": "", "covers": covers, "stubs": list(stubs),
         "timeout": {"quick": 420, "thorough": 1500}, "mem_gb": 8}
    h.update(kw)
    return h

SPEC = {
    "property": "C20",
    "level_text": "", "level_note": "", "explanation": "", "assumptions": [], "trusted_base": [], "bounds": "", "outside": [], "functions": [],
    "redirects": [
        # bounded LIFO instead of the heap Vec used as traversal stack by state::Iter (see kani_c20_sv.rs); cfg(kani) only
        {"file": "src/execution/state.rs", "pattern": r"^    stack: Vec<&'a Node>,$",
         "replacement": "    #[cfg(not(kani))]\n    stack: Vec<&'a Node>,\n    #[cfg(kani)]\n    stack: self::kani_c20_sv::Stack<&'a Node>,", "required": True},
        {"file": "src/execution/state.rs", "pattern": r"^            stack: vec!\[self\.root\.as_ref\(\)\],$",
         "replacement": "            #[cfg(not(kani))]\n            stack: vec![self.root.as_ref()],\n            #[cfg(kani)]\n            stack: self::kani_c20_sv::Stack::of(self.root.as_ref()),", "required": True},
        # typed node pool instead of std Arc (see kani_c20_sv.rs); cfg(kani) only
        {"file": "src/execution/state.rs", "pattern": r"^use std::sync::Arc;$",
         "replacement": "#[cfg(not(kani))]\nuse std::sync::Arc;\n#[cfg(kani)]\nuse self::kani_c20_sv::Arc;", "required": True},
        # bounded stand-in for std BTreeMap (see kani_c20_map.rs); cfg(kani) only
        {"file": "src/execution.rs", "pattern": r"^use std::collections::BTreeMap;$",
         "replacement": "#[cfg(not(kani))]\nuse std::collections::BTreeMap;\n#[cfg(kani)]\nuse self::kani_c20_map::BTreeMap;", "required": True},
        # bounded stand-in for smallvec (see kani_c20_sv.rs); cfg(kani) only
        {"file": "src/execution/state.rs", "pattern": r"^use smallvec::SmallVec;$",
         "replacement": "#[cfg(not(kani))]\nuse smallvec::SmallVec;\n#[cfg(kani)]\nuse self::kani_c20_sv::SmallVec;", "required": True},
        # lane bound: see kani_c20_lthash.rs; active under cfg(kani) only, native replay runs the real 1024 lanes
        {"file": "src/execution/commitment.rs", "pattern": r"^const NUM_LANES: usize = 1024;$",
         "replacement": "#[cfg(not(kani))]\nconst NUM_LANES: usize = 1024;\n#[cfg(kani)]\nconst NUM_LANES: usize = %d;" % VL, "required": True},
    ],
    "overlays": [
        {"src": "C20/kani_c20_sv.rs", "dest": "src/execution/state/kani_c20_sv.rs", "decl_in": "src/execution/state.rs", "decl": "mod kani_c20_sv;"},
        {"src": "C20/kani_c20_hash.rs", "dest": "src/crypto/kani_c20_hash.rs", "decl_in": "src/crypto.rs", "decl": "pub(crate) mod kani_c20_hash;"},
        {"src": "C20/kani_c20_map.rs", "dest": "src/execution/kani_c20_map.rs", "decl_in": "src/execution.rs", "decl": "mod kani_c20_map;"},
        {"src": "C20/kani_c20_engine.rs", "dest": "src/execution/kani_c20_engine.rs", "decl_in": "src/execution.rs", "decl": "mod kani_c20_engine;"},
        {"src": "C20/kani_c20_lthash.rs", "dest": "src/execution/commitment/kani_c20_lthash.rs", "decl_in": "src/execution/commitment.rs", "decl": "mod kani_c20_lthash;"},
        {"src": "C20/kani_c20_state.rs", "dest": "src/execution/state/kani_c20_state.rs", "decl_in": "src/execution/state.rs", "decl": "mod kani_c20_state;"},
    ],
    "harnesses": [
        _k("c20_chunk_value", ["state::chunk_at"], "", 3, role="kernel/chunk_at"),
        _k("c20_chunk_lexorder", ["state::chunk_at"], "", 3, role="kernel/chunk order"),
        _k("c20_rank", ["state::Branch::child_index"], "", 3, role="kernel/child_index"),
    ] + [_k(f"c20_child_ins_n{n}", ["state::Branch::insert_child"], "", 2) for n in range(4)]
      + [_k(f"c20_child_rem_n{n}", ["state::Branch::remove_child"], "", 2) for n in range(1, 5)]
      + [_k(n, [], "", c, tiers=Q) for (n, c) in (("c20_map_get_p0", 6), ("c20_map_iter_p0", 6), ("c20_fork_p0_wf", 5), ("c20_fork_p0_wo", 5))]
      + [_k("c20_canon_undo_p0", [], "", 3, tiers=T, mem_gb=10)]
      + [
        _lt("c20_lt_add_remove", 4, Q),
        _lt("c20_lt_commute_aa", 3, Q), _lt("c20_lt_commute_ar", 3, T), _lt("c20_lt_commute_rr", 3, T),
        _lt("c20_lt_order3", 3, Q),
        _lt("c20_lt_observe", 5, Q),
        _lt("c20_lt_hash_entry", 1, Q, stub=HASH_STUB),
        _en("c20_engine_seed_unknown", 5, Q), _en("c20_engine_seed_pending", 5, T), _en("c20_engine_seed_known", 5, T), _en("c20_engine_seed_both", 5, Q),
        _en("c20_engine_fold_n0_c0", 3, T, [HASH_STUB]), _en("c20_engine_fold_n1_c0", 3, T, [HASH_STUB]), _en("c20_engine_fold_n1_c1", 3, T, [HASH_STUB]),
        _en("c20_engine_fold_n2_c0", 3, T, [HASH_STUB]), _en("c20_engine_fold_n2_c1", 3, Q, [HASH_STUB]), _en("c20_engine_fold_n2_c2", 3, T, [HASH_STUB]),
        _en("c20_engine_fold_n3_c1", 3, T, [HASH_STUB]), _en("c20_engine_fold_n3_c2", 3, T, [HASH_STUB]),
        _en("c20_engine_chain", 2, Q, [HASH_STUB]),
        _lt("c20_lt_incremental_ref_s1", 4, T), _lt("c20_lt_incremental_ref_s2", 4, Q), _lt("c20_lt_incremental_ref_s3", 4, T),
        _lt("c20_lt_incremental_p0", 4, T),
      ],
}
