"""Driver for the Kani/CBMC harnesses: overlay build from /repo's working tree, bounded
symbolic verification, native replay of counterexamples, known findings, evidence."""
import argparse, concurrent.futures as cf, fcntl, hashlib, json, os, re, shutil, signal, subprocess, sys, time, glob

VERIF = os.path.dirname(os.path.dirname(os.path.abspath(__file__)))
REPO = os.environ.get("VERIF_REPO", "/repo")
CACHE = os.path.join(VERIF, ".cache")
SCRATCH = os.environ.get("VERIF_SCRATCH", "/var/tmp/alpenglow-verif")
HARNESS_DIR = os.path.join(VERIF, "harness")
MAX_SLOTS = 8
GUARD = "#[cfg(any(kani, verif_replay))]"

COMMON_OVERLAYS = [
    {"src": "verif_std.rs", "dest": "src/verif_std.rs", "decl_in": "src/lib.rs", "decl": "pub mod verif_std;"},
]
KANI_BASE_FLAGS = ["-Z", "stubbing", "-Z", "unstable-options", "--no-memory-safety-checks", "--no-assertion-reach-checks"]
DEFAULT_CBMC_ARGS = ["--unwindset", "memcmp.0:34"]


def log(*a):
    print(*a, file=sys.stderr, flush=True)


# ----------------------------------------------------------------------------------------
# specs
# ----------------------------------------------------------------------------------------
def load_spec(prop):
    path = os.path.join(HARNESS_DIR, prop, "spec.py")
    if not os.path.exists(path):
        raise SystemExit(f"no spec for {prop} ({path})")
    g = {"__file__": path}
    with open(path) as f:
        exec(compile(f.read(), path, "exec"), g)
    spec = g["SPEC"]
    spec.setdefault("property", prop)
    names = [h["name"] for h in spec["harnesses"]]
    for a in names:
        for b in names:
            assert a == b or a not in b, f"harness name {a} is a substring of {b}"
    for h in spec["harnesses"]:
        h.setdefault("tiers", ["quick", "thorough"])
        h.setdefault("kind", "proof")
        h.setdefault("timeout", {"quick": 360, "thorough": 1200})
        h.setdefault("mem_gb", 10)
        h.setdefault("cbmc_args", list(DEFAULT_CBMC_ARGS) + list(spec.get("cbmc_args_extra", [])))
        h.setdefault("kani_args", [])
        h.setdefault("role", h["name"])
    return spec


def known_findings():
    p = os.path.join(VERIF, "known_findings.json")
    if not os.path.exists(p):
        return {"known": [], "fixed": []}
    return json.load(open(p))


def match_known(kf, prop, harness, desc):
    for e in kf.get("known", []):
        if e["property"] == prop and re.fullmatch(e["harness"], harness) and e["check"] == desc:
            return e
    return None


# ----------------------------------------------------------------------------------------
# slots (scratch tree + cached kani target dir), exclusive by flock
# ----------------------------------------------------------------------------------------
class Slot:
    def __init__(self, kind="kani"):
        self.kind = kind
        self.k = None
        self.fh = None

    def __enter__(self):
        os.makedirs(SCRATCH, exist_ok=True)
        os.makedirs(CACHE, exist_ok=True)
        n = MAX_SLOTS if self.kind == "kani" else 2
        while True:
            for k in range(n):
                fh = open(os.path.join(SCRATCH, f"{self.kind}-{k}.lock"), "w")
                try:
                    fcntl.flock(fh, fcntl.LOCK_EX | fcntl.LOCK_NB)
                    self.k, self.fh = k, fh
                    return self
                except OSError:
                    fh.close()
            time.sleep(1.0)

    @property
    def tree(self):
        return os.path.join(SCRATCH, f"{self.kind}-{self.k}", "repo")

    @property
    def target(self):
        return os.path.join(CACHE, f"{self.kind}-target-{self.k}")

    def __exit__(self, *a):
        # the scratch copy of the repository is removed as soon as the run is over;
        # the target directory is the framework's own build cache under /verif/.cache
        shutil.rmtree(os.path.dirname(self.tree), ignore_errors=True)
        fcntl.flock(self.fh, fcntl.LOCK_UN)
        self.fh.close()


def ensure_target(slot):
    """A fresh kani target dir is seeded from any existing one (deps are identical)."""
    if os.path.isdir(slot.target):
        return
    seeds = sorted(glob.glob(os.path.join(CACHE, f"{slot.kind}-target-*")))
    seeds = [s for s in seeds if os.path.isdir(s) and not os.path.exists(s + ".busy")]
    if seeds:
        tmp = slot.target + ".tmp%d" % os.getpid()
        try:
            subprocess.run(["cp", "-a", seeds[0], tmp], check=True)
            os.rename(tmp, slot.target)
        except Exception:
            shutil.rmtree(tmp, ignore_errors=True)
            os.makedirs(slot.target, exist_ok=True)
    else:
        os.makedirs(slot.target, exist_ok=True)


# ----------------------------------------------------------------------------------------
# overlay
# ----------------------------------------------------------------------------------------
def _set_mtime(path, t):
    os.utime(path, (t, t))


def prepare_tree(dst, spec, misses):
    os.makedirs(dst, exist_ok=True)
    subprocess.run(
        # no -t, --checksum: a file whose *content* changed gets a fresh mtime, an unchanged one keeps
        # the copy's mtime; cargo's mtime fingerprints then follow content even when the source tree
        # is switched to one with older timestamps (VERIF_REPO, git checkout)
        ["rsync", "-rlpgoD", "--checksum", "--delete", "--exclude", "/target", "--exclude", "/.git", "--exclude", "/data", "--exclude", "/fuzz/target", REPO + "/", dst + "/"],
        check=True,
    )
    appended = {}
    for ov in COMMON_OVERLAYS + spec.get("overlays", []):
        src = os.path.join(HARNESS_DIR, ov["src"])
        dest = os.path.join(dst, ov["dest"])
        os.makedirs(os.path.dirname(dest), exist_ok=True)
        shutil.copyfile(src, dest)
        _set_mtime(dest, os.path.getmtime(src))
        parent = os.path.join(dst, ov["decl_in"])
        if not os.path.exists(parent):
            raise SystemExit(f"overlay parent {ov['decl_in']} does not exist in /repo")
        appended.setdefault(parent, []).append((ov["decl"], os.path.getmtime(src)))
    for parent, decls in appended.items():
        orig_m = os.path.getmtime(parent)
        with open(parent, "a") as f:
            for d, _ in decls:
                f.write(f"\n{GUARD}\n{d}\n")
        _set_mtime(parent, max([orig_m] + [m for _, m in decls]))
    # capacity of the bounded stand-in containers (per spec: a stated bound)
    cap = spec.get("coll_cap")
    collp = os.path.join(dst, "src", "verif_coll.rs")
    if cap and os.path.exists(collp):
        t = open(collp).read()
        lst = ", ".join(str(i) for i in range(cap))
        t = re.sub(r"pub const CAP: usize = \d+; // VERIF-CAP", f"pub const CAP: usize = {cap}; // VERIF-CAP", t)
        t = re.sub(r"\[[0-9, ]+\]\)(;?) // VERIF-CAP-LIST", lambda m: f"[{lst}]){m.group(1)} // VERIF-CAP-LIST", t)
        m = os.path.getmtime(collp)
        open(collp, "w").write(t)
        _set_mtime(collp, max(m, os.path.getmtime(os.path.join(HARNESS_DIR, spec["property"], "spec.py"))))
    # import redirection (only active under cfg(kani)); a pattern that no longer matches is
    # recorded and left alone: the build then uses the real item (slower, never unsound)
    for rd in spec.get("redirects", []):
        path = os.path.join(dst, rd["file"])
        if not os.path.exists(path):
            misses.append(f"{rd['file']}: file missing")
            continue
        text = open(path).read()
        if rd.get("func"):
            new = rd["func"](text)
            n = 1 if new != text else 0
        else:
            new, n = re.subn(rd["pattern"], rd["replacement"], text, count=rd.get("count", 0), flags=re.M)
        if n == 0 and rd.get("optional"):
            continue  # a guard pattern (e.g. ambient randomness) that the current sources do not contain
        if n == 0:
            misses.append(f"{rd['file']}: pattern {rd['pattern']!r} not found")
            if rd.get("required"):
                raise SystemExit(f"required redirection failed: {rd['file']}: {rd['pattern']}")
            continue
        m = os.path.getmtime(path)
        open(path, "w").write(new)
        _set_mtime(path, max(m, os.path.getmtime(os.path.join(HARNESS_DIR, spec["property"], "spec.py"))))
    cfgp = os.path.join(dst, ".cargo", "config.toml")
    os.makedirs(os.path.dirname(cfgp), exist_ok=True)
    with open(cfgp, "a") as f:
        f.write("\n[net]\noffline = true\n")


def repo_fingerprint():
    try:
        head = subprocess.run(["git", "-C", REPO, "rev-parse", "HEAD"], capture_output=True, text=True).stdout.strip()
        diff = subprocess.run(["git", "-C", REPO, "diff", "HEAD", "--", "src", "Cargo.toml"], capture_output=True).stdout
        return head, hashlib.sha256(diff).hexdigest()[:12] if diff else "clean"
    except Exception:
        return "unknown", "unknown"


# ----------------------------------------------------------------------------------------
# running kani
# ----------------------------------------------------------------------------------------
def run_limited(cmd, cwd, timeout, mem_gb, env, logpath):
    """Runs cmd in its own process group under an address-space limit and a wall-clock cap."""
    import resource

    def pre():
        os.setsid()
        lim = int(mem_gb * (1 << 30))
        resource.setrlimit(resource.RLIMIT_AS, (lim, lim))

    t0 = time.time()
    with open(logpath, "w") as out:
        p = subprocess.Popen(cmd, cwd=cwd, stdout=out, stderr=subprocess.STDOUT, env=env, preexec_fn=pre)
        try:
            p.wait(timeout=timeout)
            timed_out = False
        except subprocess.TimeoutExpired:
            timed_out = True
            try:
                os.killpg(p.pid, signal.SIGKILL)
            except ProcessLookupError:
                pass
            p.wait()
    return p.returncode, timed_out, time.time() - t0


CHECK_RE = re.compile(r"^Check (\d+): (.+)\n\t - Status: (\w+)\n\t - Description: \"(.*)\"\n(?:\t - Location: (.*)\n)?", re.M)


def parse_kani(text):
    r = {"checks": [], "verdict": None, "covers": [], "stubs": [x.replace(" ", "") for x in re.findall(r"^\s*- Stub: (.*)$", text, re.M)]}
    # Kani prints RESULTS once (after the last solver run); parse every Check block
    for m in CHECK_RE.finditer(text):
        num, ident, status, desc, loc = m.groups()
        if desc.startswith('"') and desc.endswith('"') and len(desc) >= 2:
            desc = desc[1:-1]
        entry = {"id": ident, "status": status, "desc": desc, "loc": loc or ""}
        if ".cover." in ident:
            r["covers"].append(entry)
        else:
            r["checks"].append(entry)
    m = re.search(r"^VERIFICATION:- (\w+)", text, re.M)
    r["verdict"] = m.group(1) if m else None
    def f(pat, cast=float):
        mm = re.findall(pat, text)
        return cast(mm[-1]) if mm else None
    r["symex_s"] = f(r"Runtime Symex: ([\d.]+)s")
    r["solver_s"] = sum(float(x) for x in re.findall(r"Runtime decision procedure: ([\d.]+)s", text))
    r["verification_s"] = f(r"Verification Time: ([\d.]+)s")
    mm = re.findall(r"Generated (\d+) VCC\(s\), (\d+) remaining", text)
    r["vccs"] = int(mm[-1][0]) if mm else None
    r["vccs_remaining"] = int(mm[-1][1]) if mm else None
    mm = re.findall(r"(\d+) variables, (\d+) clauses", text)
    r["sat_vars"] = int(mm[0][0]) if mm else None
    r["sat_clauses"] = int(mm[0][1]) if mm else None
    r["compile_error"] = bool(re.search(r"^error(\[E\d+\])?:", text, re.M)) and not r["checks"]
    r["unsupported"] = [c for c in r["checks"] if "unsupported_construct" in c["id"] and c["status"] == "FAILURE"]
    return r


PLAY_RE = re.compile(r"/// Check for `(\w+)`: \"(.*)\"\n(?:.*\n)*?fn (kani_concrete_playback_\w+)\(\) \{\n\s*let concrete_vals: Vec<Vec<u8>> = vec!\[\n((?:.*\n)*?)\s*\];", re.M)


def parse_playbacks(text):
    out = []
    for m in PLAY_RE.finditer(text):
        kind, desc, _fn, body = m.groups()
        vals = []
        for line in body.splitlines():
            line = line.strip()
            mm = re.match(r"vec!\[(.*)\],?$", line)
            if mm:
                inner = mm.group(1).strip()
                vals.append([int(x) for x in inner.split(",") if x.strip()] if inner else [])
        if desc.startswith('"') and desc.endswith('"') and len(desc) >= 2:
            desc = desc[1:-1]
        out.append({"kind": kind, "desc": desc, "values": vals})
    return out


def kani_cmd(h, slot, playback):
    cmd = ["cargo", "kani", "--lib", "--harness", h["name"]] + KANI_BASE_FLAGS + list(h["kani_args"])
    if h.get("unwind"):
        cmd += ["--default-unwind", str(h["unwind"])]
    if playback:
        cmd += ["-Z", "concrete-playback", "--concrete-playback=print"]
    cmd += ["--target-dir", slot.target]
    if h["cbmc_args"]:
        cmd += ["--cbmc-args"] + list(h["cbmc_args"])
    return cmd


def classify(h, parsed, rc, timed_out):
    """-> (status, failed_descs, detail); status in pass|fail|inconclusive"""
    if timed_out:
        return "inconclusive", [], "time cap reached"
    if parsed["compile_error"] or parsed["verdict"] is None:
        return "inconclusive", [], "no verification verdict (build error, internal error or memory cap)"
    statuses = {c["status"] for c in parsed["checks"]}
    failed = [c for c in parsed["checks"] if c["status"] == "FAILURE"]
    if "ERROR" in statuses:
        return "inconclusive", [], "solver error (memory cap)"
    unwind = [c for c in failed if "unwinding assertion" in c["desc"]]
    if unwind:
        return "inconclusive", [], "unwinding assertion failed: bound too small (%s)" % unwind[0]["loc"]
    if parsed["unsupported"]:
        return "inconclusive", [], "reachable unsupported construct: " + parsed["unsupported"][0]["desc"]
    vs_err = [c for c in failed if "VS-UNSUPPORTED" in c["desc"]]
    if vs_err:
        return "inconclusive", [], "harness model limit reached: " + vs_err[0]["desc"]
    if failed:
        return "fail", sorted({c["desc"] for c in failed}), ""
    if "UNDETERMINED" in statuses:
        return "inconclusive", [], "undetermined checks"
    if parsed["verdict"] != "SUCCESSFUL":
        return "inconclusive", [], "verdict %s without a failed check" % parsed["verdict"]
    bad_cov = [c for c in parsed["covers"] if c["status"] != "SATISFIED"]
    if bad_cov:
        return "inconclusive", [], "vacuity: cover not satisfied: " + bad_cov[0]["desc"]
    want = h.get("covers")
    if want is not None and len(parsed["covers"]) < want:
        return "inconclusive", [], "vacuity: %d cover points found, %d expected" % (len(parsed["covers"]), want)
    for s in h.get("stubs", []):
        if not any(s in line for line in parsed["stubs"]):
            return "inconclusive", [], "declared stub not applied: " + s
    return "pass", [], ""


def effective_spec(spec, h):
    """A harness may be built from its own overlay set (`build`: overlays / redirects / coll_cap), e.g. a
    pool-level harness of a property whose other harnesses need the slot-state overlay only."""
    return dict(spec, **h["build"]) if h.get("build") else spec


def run_harness(spec, h, tier, keep_logs):
    """Runs one harness under Kani; on failure re-runs with concrete playback."""
    spec = effective_spec(spec, h)
    misses = []
    res = {"name": h["name"], "role": h["role"], "kind": h["kind"]}
    timeout = h["timeout"][tier] if isinstance(h["timeout"], dict) else h["timeout"]
    if os.environ.get("VERIF_TIMEOUT"):
        timeout = int(os.environ["VERIF_TIMEOUT"])
    if os.environ.get("VERIF_MEM_GB"):
        h = dict(h, mem_gb=int(os.environ["VERIF_MEM_GB"]))
    with Slot("kani") as slot:
        ensure_target(slot)
        prepare_tree(slot.tree, spec, misses)
        env = dict(os.environ, CARGO_NET_OFFLINE="true")
        env.pop("RUSTFLAGS", None)
        logdir = os.path.join(CACHE, "logs")
        os.makedirs(logdir, exist_ok=True)
        logpath = os.path.join(logdir, f"{spec['property']}-{h['name']}.log")
        cmd = kani_cmd(h, slot, playback=False)
        rc, to, wall = run_limited(cmd, slot.tree, timeout, h["mem_gb"], env, logpath)
        text = open(logpath, errors="replace").read()
        parsed = parse_kani(text)
        status, failed, detail = classify(h, parsed, rc, to)
        res.update(status=status, failed=failed, detail=detail, wall_s=round(wall, 1), cmd=" ".join(cmd), redirect_misses=misses)
        for k in ("symex_s", "solver_s", "verification_s", "vccs", "vccs_remaining", "sat_vars", "sat_clauses"):
            res[k] = parsed[k]
        res["n_checks"] = len(parsed["checks"])
        res["n_success"] = sum(1 for c in parsed["checks"] if c["status"] == "SUCCESS")
        res["covers"] = [(c["desc"], c["status"]) for c in parsed["covers"]]
        res["stubs_applied"] = parsed["stubs"]
        res["playbacks"] = []
        if status == "fail" and h["kind"] == "proof":
            # second run: ask the solver for the assignment of every failing check
            logpath2 = logpath[:-4] + ".playback.log"
            cmd2 = kani_cmd(h, slot, playback=True)
            # the trace-producing run needs more memory than the deciding run
            rc2, to2, wall2 = run_limited(cmd2, slot.tree, timeout * 2, h["mem_gb"] + 8, env, logpath2)
            text2 = open(logpath2, errors="replace").read()
            # Kani de-duplicates playback tests by value: an assignment that violates a check and
            # also satisfies a cover point may be printed once, labelled as the cover.  Keep the
            # cover-labelled ones as fallback candidates; the native replay decides.
            pbs = parse_playbacks(text2)
            res["playbacks"] = [p for p in pbs if p["kind"] != "cover"] + [p for p in pbs if p["kind"] == "cover"]
            res["wall_s"] = round(wall + wall2, 1)
    return res


# ----------------------------------------------------------------------------------------
# native replay of a counterexample against the real code
# ----------------------------------------------------------------------------------------
def write_replay_file(prop, h, pb, spec):
    d = os.path.join(VERIF, "replays", prop)
    os.makedirs(d, exist_ok=True)
    body = "\n".join(",".join(str(b) for b in v) for v in pb["values"])
    hid = hashlib.sha256((h["name"] + pb["desc"] + body).encode()).hexdigest()[:10]
    path = os.path.join(d, f"{h['name']}-{hid}.txt")
    with open(path, "w") as f:
        f.write(f"# property: {prop}\n# harness: {h['name']}\n# module: {h['path']}\n# failed-check: {pb['desc']}\n")
        f.write("# values: one `kani::any()` draw per line, little-endian bytes, in call order\n")
        f.write(body + "\n")
    return path


def read_replay_file(path):
    meta = {}
    for line in open(path):
        if line.startswith("# ") and ":" in line:
            k, v = line[2:].split(":", 1)
            meta[k.strip()] = v.strip()
    return meta


def native_replay(spec, harness_name, module_path, replay_file, release=False):
    """Builds the overlay with the repository's own toolchain (`--cfg verif_replay`, no Kani,
    no stubs, no stand-ins) and runs the harness body on the recorded values.
    -> (reproduced: bool|None, message)"""
    with Slot("native") as slot:
        ensure_target(slot)
        prepare_tree(slot.tree, dict(spec, redirects=[]), [])
        env = dict(os.environ, CARGO_NET_OFFLINE="true", RUSTFLAGS="--cfg tokio_unstable --cfg verif_replay -A warnings",
                   VERIF_REPLAY_FILE=os.path.abspath(replay_file), CARGO_TARGET_DIR=slot.target, RUST_BACKTRACE="0")
        test = f"{module_path}::{harness_name}"
        cmd = ["cargo", "test", "--offline", "--lib"] + (["--release"] if release else []) + ["--", "--exact", test, "--nocapture", "--test-threads", "1"]
        p = subprocess.run(cmd, cwd=slot.tree, env=env, capture_output=True, text=True, timeout=3600)
        out = p.stdout + p.stderr
    if re.search(r"test result: ok\. 1 passed", out):
        return False, "the real code satisfied the assertion on the solver's values"
    if "running 0 tests" in out or re.search(r"test result: ok\. 0 passed", out):
        return None, "replay harness not found in the native build"
    m = re.search(r"panicked at ([^\n]*):\n([^\n]*)", out)
    msg = (m.group(2) if m else "").strip()
    if "VS-ASSUME-FAILED" in out or "VS-REPLAY" in out:
        return False, "solver values do not satisfy the harness assumptions natively: " + msg
    if re.search(r"test result: FAILED", out) or "panicked at" in out:
        return True, msg or "native run panicked"
    return None, "native build failed: " + out[-800:]


# ----------------------------------------------------------------------------------------
# evidence
# ----------------------------------------------------------------------------------------
def write_evidence(spec, tier, seed, results, outcome, wall, violations, known_hits):
    prop = spec["property"]
    head, dirty = repo_fingerprint()
    obligations = sum(r.get("n_checks", 0) + len(r.get("covers", [])) for r in results)
    discharged = sum(r.get("n_success", 0) + sum(1 for _, s in r.get("covers", []) if s == "SATISFIED") for r in results)
    harness_map = {h["name"]: h for h in spec["harnesses"]}
    samples = []
    for r in results[:40]:
        h = harness_map[r["name"]]
        samples.append({
            "harness": r["name"], "role": r["role"], "functions_encoded": h.get("functions", spec.get("functions", [])),
            "bounds": h.get("bounds", spec.get("bounds", "")), "verdict": r["status"], "detail": r.get("detail", ""),
            "failed_checks": r.get("failed", []), "cbmc_checks": r.get("n_checks"), "cbmc_checks_success": r.get("n_success"),
            "covers": r.get("covers", []), "vccs": r.get("vccs"), "sat_vars": r.get("sat_vars"), "sat_clauses": r.get("sat_clauses"),
            "symex_s": r.get("symex_s"), "solver_s": r.get("solver_s"), "wall_s": r.get("wall_s"),
            "stubs_applied": r.get("stubs_applied", []), "redirect_misses": r.get("redirect_misses", []),
            "replays": r.get("replay_outcomes", []),
        })
    nontrivial = sum(1 for r in results if r["status"] in ("pass", "fail", "witness-ok") and all(s == "SATISFIED" for _, s in r.get("covers", [])) and r.get("n_checks", 0) > 0)
    ev = {
        "property_id": prop, "tier": tier, "seed": seed, "level": "other",
        "coverage": {
            "explanation": spec.get("explanation", "") + " Every verdict is bounded: it holds for all values inside the stated bounds of each harness and says nothing outside them.",
            "evaluations": len(results),
            "distinct_nontrivial": nontrivial,
            "rule": "one evaluation = one Kani proof harness decided by CBMC/CaDiCaL over all symbolic inputs within its bounds; counted non-trivial when it produced CBMC checks and every kani::cover! reachability witness was SATISFIED",
            "obligations": obligations, "discharged": discharged,
            "checker_cmd": results[0]["cmd"] if results else "",
            "trusted_base": spec.get("trusted_base", []) + ["Kani 0.68.0 MIR->goto translation", "CBMC 6.11.0", "CaDiCaL", "harness overlay under /verif/harness (verif_std, stand-ins, oracle stubs)"],
            "samples": samples, "exhaustive": False,
            "functions_encoded": spec.get("functions", []), "bounds": spec.get("bounds", ""), "outside_claim": spec.get("outside", []),
            "solver_s_total": round(sum((r.get("solver_s") or 0) for r in results), 1),
            "symex_s_total": round(sum((r.get("symex_s") or 0) for r in results), 1),
            "harness_verdicts": {r["name"]: r["status"] for r in results},
            "known_findings_reported": known_hits, "outcome": outcome,
            "repo_head": head, "repo_worktree_diff": dirty,
        },
        "assumptions": spec.get("assumptions", []),
        "wall_s": round(wall, 1), "violations": violations,
    }
    # a run against another tree (VERIF_REPO: seeded changes) or an experimental run must not replace the evidence of /repo
    evdir = os.path.join(VERIF, "evidence") if REPO == "/repo" and not os.environ.get("VERIF_EXPERIMENTAL") else os.path.join(CACHE, "evidence-other")
    os.makedirs(evdir, exist_ok=True)
    with open(os.path.join(evdir, f"{prop}.json"), "w") as f:
        json.dump(ev, f, indent=1)


# ----------------------------------------------------------------------------------------
# main
# ----------------------------------------------------------------------------------------
def check_property(prop, tier, only, jobs, seed):
    t0 = time.time()
    spec = load_spec(prop)
    kf = known_findings()
    hs = [h for h in spec["harnesses"] if tier in h["tiers"] and (not only or any(o in h["name"] for o in only))]
    if not hs:
        raise SystemExit(f"no harness selected for {prop}/{tier}")
    log(f"[{prop}] tier={tier} harnesses={len(hs)} jobs={jobs}")
    results = []
    with cf.ThreadPoolExecutor(max_workers=jobs) as ex:
        futs = {ex.submit(run_harness, spec, h, tier, False): h for h in hs}
        for fu in cf.as_completed(futs):
            h = futs[fu]
            try:
                r = fu.result()
            except Exception as e:  # harness infrastructure error: inconclusive
                r = {"name": h["name"], "role": h["role"], "kind": h["kind"], "status": "inconclusive", "failed": [], "detail": f"driver error: {e!r}", "cmd": "", "playbacks": []}
            log(f"[{prop}] {r['name']}: {r['status']} {r.get('detail','')} {r.get('failed','')} ({r.get('wall_s')}s, solver {r.get('solver_s')}s)")
            results.append(r)
    results.sort(key=lambda r: [h["name"] for h in hs].index(r["name"]))
    hmap = {h["name"]: h for h in hs}
    violations, inconclusive, known_hits, lines = 0, [], [], []
    for r in results:
        h = hmap[r["name"]]
        if h["kind"] == "witness":
            # negated twin: must FAIL, otherwise the harness it shadows is vacuous
            if r["status"] == "fail":
                r["status"] = "witness-ok"
            else:
                inconclusive.append(f"{r['name']}: witness twin did not fail ({r['status']} {r.get('detail','')})")
                r["status"] = "inconclusive"
            continue
        if r["status"] == "inconclusive":
            inconclusive.append(f"{r['name']}: {r['detail']}")
        if r["status"] != "fail":
            continue
        unknown = []
        for d in r["failed"]:
            e = match_known(kf, prop, r["name"], d)
            if e:
                msg = f"KNOWN-FINDING: property={prop} {e['what']} [harness {r['name']}: {d}]"
                if msg not in lines:
                    lines.append(msg)
                known_hits.append({"harness": r["name"], "check": d, "what": e["what"]})
            else:
                unknown.append(d)
        if not unknown:
            r["status"] = "known-finding"
            continue
        # replay every solver assignment that targets an unknown failing check
        r["replay_outcomes"] = []
        confirmed = False
        pbs = [p for p in r.get("playbacks", []) if p["desc"] in unknown] + [p for p in r.get("playbacks", []) if p["desc"] not in unknown]
        if not pbs:
            # a harness without symbolic draws (a concrete scenario decided by the solver) has no assignment to
            # print: its replay is the native run of the same body on the empty assignment.  (A harness that does
            # draw values stops natively with VS-REPLAY on an empty file and is reported as not reproduced.)
            pbs = [{"kind": "assert", "desc": unknown[0], "values": []}]
        for pb in pbs[:8]:
            path = write_replay_file(prop, h, pb, spec)
            rep, msg = native_replay(effective_spec(spec, h), h["name"], h["path"], path)
            r["replay_outcomes"].append({"file": path, "failed_check": pb["desc"], "reproduced": rep, "native_message": msg})
            log(f"[{prop}] replay {r['name']} [{pb['desc']}] -> reproduced={rep} {msg}")
            if rep:
                confirmed = True
                violations += 1
                lines.append(f"VIOLATION property={prop} replay={path}")
                break
        if not confirmed:
            inconclusive.append(f"{r['name']}: solver counterexample for {unknown} did not reproduce natively ({[o['native_message'] for o in r['replay_outcomes']] or 'no assignment extracted'})")
            r["status"] = "inconclusive"
    outcome = "violation" if violations else ("inconclusive" if inconclusive else "pass")
    write_evidence(spec, tier, seed, results, outcome, time.time() - t0, violations, known_hits)
    for l in lines:
        print(l, flush=True)
    for i in inconclusive:
        print(f"INCONCLUSIVE property={prop} {i}", flush=True)
    npass = sum(1 for r in results if r["status"] in ("pass", "witness-ok"))
    print(f"[{prop}] {outcome}: {npass}/{len(results)} harnesses passed, {violations} violation(s), {len(inconclusive)} inconclusive, {len(known_hits)} known finding hit(s); {time.time()-t0:.0f}s", flush=True)
    return 1 if violations else (2 if inconclusive else 0)


def do_replay(path):
    meta = read_replay_file(path)
    prop, name, mod = meta["property"], meta["harness"], meta["module"]
    spec = load_spec(prop)
    for h in spec["harnesses"]:
        if h["name"] == name:
            spec = effective_spec(spec, h)
    rep, msg = native_replay(spec, name, mod, path, release=bool(os.environ.get("VERIF_REPLAY_RELEASE")))
    print(f"replay {path}: reproduced={rep} ({msg})")
    if rep:
        print(f"VIOLATION property={prop} replay={path}")
        return 1
    return 0 if rep is False else 2


def do_setup(jobs):
    """Pre-builds the dependency graph under Kani (slot 0, copied on demand) and natively."""
    spec = load_spec("C15")
    h = dict(spec["harnesses"][0])
    t0 = time.time()
    r = run_harness(spec, h, "quick", False)
    log(f"setup: kani cache built via {h['name']}: {r['status']} in {time.time()-t0:.0f}s")
    with Slot("native") as slot:
        ensure_target(slot)
        prepare_tree(slot.tree, dict(spec, redirects=[]), [])
        env = dict(os.environ, CARGO_NET_OFFLINE="true", RUSTFLAGS="--cfg tokio_unstable --cfg verif_replay -A warnings", CARGO_TARGET_DIR=slot.target)
        p = subprocess.run(["cargo", "test", "--offline", "--lib", "--no-run"], cwd=slot.tree, env=env, capture_output=True, text=True)
        log(f"setup: native replay build rc={p.returncode} in {time.time()-t0:.0f}s")
        if p.returncode != 0:
            log(p.stderr[-2000:])
            return 1
    return 0 if r["status"] in ("pass", "fail") else 1


def main(argv):
    ap = argparse.ArgumentParser()
    ap.add_argument("prop", nargs="?")
    ap.add_argument("--tier", default=os.environ.get("VERIF_TIER", "quick"), choices=["quick", "thorough"])
    ap.add_argument("--only", action="append")
    ap.add_argument("--jobs", type=int, default=int(os.environ.get("VERIF_JOBS", "6")))
    ap.add_argument("--replay")
    ap.add_argument("--setup", action="store_true")
    ap.add_argument("--list", action="store_true")
    a = ap.parse_args(argv)
    seed = int(os.environ.get("VERIF_SEED", "0") or 0)
    if a.setup:
        return do_setup(a.jobs)
    if a.replay:
        return do_replay(a.replay)
    if a.list:
        props = [a.prop] if a.prop else sorted(d for d in os.listdir(HARNESS_DIR) if os.path.exists(os.path.join(HARNESS_DIR, d, "spec.py")))
        for p in props:
            for h in load_spec(p)["harnesses"]:
                print(p, h["name"], ",".join(h["tiers"]), h["kind"])
        return 0
    if not a.prop:
        ap.error("property id required")
    return check_property(a.prop, a.tier, a.only, a.jobs, seed)
